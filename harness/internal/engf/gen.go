package engf

import (
	"fmt"
	"strings"
)

// Shape is one generated Go package: one derive call (one signature shape) and
// all exported cases that exercise it.
type Shape struct {
	Key   string
	Fam   string
	Cases []*Case
	Pkg   string // package (directory) name
	Call  string // the derive call under test, as Go text (used in witnesses)
	Size  []int  // for minimal witnesses: smaller = simpler
	Src   string // user source of the package

	GenExit    int
	GenErr     string
	TimedOut   bool
	CompileOK  bool
	CompileErr string // first compiler error, position stripped
	CompileAll string
	Derived    string
}

// ---- small text helpers for instrumented functions ---------------------------
func xs(n int) []string {
	out := make([]string, n)
	for i := range out {
		out[i] = fmt.Sprintf("x%d", i)
	}
	return out
}

func paramDecl(names, types []string) string {
	ps := make([]string, len(types))
	for i := range types {
		ps[i] = names[i] + " " + types[i]
	}
	return strings.Join(ps, ", ")
}

// prArgs: projections of variables vs of the given kinds.
func prArgs(vs, ks []string, table map[string]kindInfo) []string {
	out := make([]string, len(ks))
	for i, k := range ks {
		out[i] = table[k].pr + "(" + vs[i] + ")"
	}
	return out
}

// mkVals: token expressions of the given kinds.
func mkVals(toks []int, ks []string, table map[string]kindInfo) []string {
	out := make([]string, len(ks))
	for i, k := range ks {
		out[i] = fmt.Sprintf("%s(%d)", table[k].mk, toks[i])
	}
	return out
}

func enterLine(id int, ks []string, table map[string]kindInfo) string {
	a := append([]string{fmt.Sprint(id)}, prArgs(xs(len(ks)), ks, table)...)
	return "\ti := rt.Enter(" + strings.Join(a, ", ") + ")\n"
}

func exitLine(errTok int, toks []int) string {
	a := []string{"i", fmt.Sprint(errTok)}
	for _, t := range toks {
		a = append(a, fmt.Sprint(t))
	}
	return "\trt.Exit(" + strings.Join(a, ", ") + ")\n"
}

func retLine(vals []string) string {
	if len(vals) == 0 {
		return "\treturn\n"
	}
	return "\treturn " + strings.Join(vals, ", ") + "\n"
}

func funcType(ptypes, rtypes []string) string {
	return "func(" + strings.Join(ptypes, ", ") + ")" + results(rtypes)
}

// lhs renders "r0, r1, err := " (or "" when there is nothing to bind).
func lhs(n int, withErr bool, op string) (string, []string) {
	vs := make([]string, n)
	for i := range vs {
		vs[i] = fmt.Sprintf("r%d", i)
	}
	all := append([]string{}, vs...)
	if withErr {
		all = append(all, "err")
	}
	if len(all) == 0 {
		return "", vs
	}
	return strings.Join(all, ", ") + " " + op + " ", vs
}

func header(pkg string) string {
	return "package " + pkg + "\n\nimport \"m/rt\"\n\n"
}

// runLoop wraps the per-case body: rows become a [][]int table (row[0] = case id);
// body runs under panic recovery with cs in scope.
func runLoop(rows [][]int, pre, body, post string) string {
	var b strings.Builder
	b.WriteString("var cases = [][]int{\n")
	for _, r := range rows {
		b.WriteString("\t{" + itoas(r) + "},\n")
	}
	b.WriteString("}\n\n")
	return b.String() + runLoopT("cs[0]", pre, body, post)
}

// runLoopT is runLoop for a caller-declared table "cases" whose elements carry the case id idExpr.
func runLoopT(idExpr, pre, body, post string) string {
	var b strings.Builder
	b.WriteString("func Run() []*rt.Obs {\n\tvar out []*rt.Obs\n\tfor ci := range cases {\n\t\tcs := cases[ci]\n\t\to := rt.NewObs(" + idExpr + ")\n")
	b.WriteString(pre)
	b.WriteString("\t\trt.Reset()\n\t\trt.Guard(o, func() {\n")
	b.WriteString(body)
	b.WriteString("\t\t})\n")
	b.WriteString(post)
	b.WriteString("\t\tout = append(out, o)\n\t}\n\treturn out\n}\n")
	return b.String()
}

func goInts(xs []int) string { return "[]int{" + itoas(xs) + "}" }

func sumInts(xs []int) int {
	s := 0
	for _, x := range xs {
		s += x
	}
	return s
}

// ---- C16 chain: compose and the error form of fmap -----------------------------
func genChain(sh *Shape) {
	c := sh.Cases[0].C
	var b strings.Builder
	b.WriteString(header(sh.Pkg))
	b.WriteString("var failAt int\n\n")
	var sigs []string
	for i := 1; i <= c.N; i++ {
		pk, rk := c.K2[i-1], c.K2[i]
		st := c.Stages[i-1]
		pt, rtys := typeList(pk, kinds), typeList(rk, kinds)
		full := append([]string{}, rtys...)
		if st.Canfail {
			full = append(full, "error")
		}
		sigs = append(sigs, funcType(pt, full))
		fmt.Fprintf(&b, "func f%d(%s)%s {\n", i, paramDecl(xs(len(pk)), pt), results(full))
		b.WriteString(enterLine(i, pk, kinds))
		if st.Canfail {
			fmt.Fprintf(&b, "\tif failAt == %d {\n\t", i)
			b.WriteString(exitLine(st.Err, st.Part))
			b.WriteString("\t" + retLine(append(mkVals(st.Part, rk, kinds), fmt.Sprintf("rt.MkErr(%d)", st.Err))))
			b.WriteString("\t}\n")
		}
		b.WriteString(exitLine(0, st.Res))
		vals := mkVals(st.Res, rk, kinds)
		if st.Canfail {
			vals = append(vals, "nil")
		}
		b.WriteString(retLine(vals))
		b.WriteString("}\n\n")
	}
	fk := c.K2[c.N]
	var rows [][]int
	for _, cs := range sh.Cases {
		rows = append(rows, []int{cs.ID, cs.I.Fail})
	}
	var body strings.Builder
	args := strings.Join(mkVals(c.Args, c.K2[0], kinds), ", ")
	if sh.Fam == "compose" {
		fs := make([]string, c.N)
		for i := range fs {
			fs[i] = fmt.Sprintf("f%d", i+1)
		}
		sh.Call = "deriveCompose(" + strings.Join(sigs, ", ") + ")"
		l, vs := lhs(c.Nres, true, ":=")
		fmt.Fprintf(&body, "\t\t\t%sderiveCompose(%s)(%s)\n\t\t\to.Pre = rt.Peek()\n", l, strings.Join(fs, ", "), args)
		fmt.Fprintf(&body, "\t\t\to.Ret = rt.Ints(%s)\n\t\t\to.Ret2 = o.Ret\n\t\t\to.Err = rt.PrErr(err)\n", strings.Join(prArgs(vs, fk, kinds), ", "))
	} else { // fmaperr: deriveFmap(f, g), f = stage 2, g = stage 1
		sh.Call = "deriveFmap(" + sigs[1] + ", " + sigs[0] + ")"
		switch {
		case c.R == 0:
			body.WriteString("\t\t\terr := deriveFmap(f2, f1)\n\t\t\to.Pre = rt.Peek()\n\t\t\to.Err = rt.PrErr(err)\n")
		case c.R == 1:
			fmt.Fprintf(&body, "\t\t\tr0, err := deriveFmap(f2, f1)\n\t\t\to.Pre = rt.Peek()\n\t\t\to.Ret = rt.Ints(%s)\n\t\t\to.Ret2 = o.Ret\n\t\t\to.Err = rt.PrErr(err)\n", prArgs([]string{"r0"}, fk, kinds)[0])
		default:
			l, vs := lhs(c.R, false, ":=")
			zeros := make([]string, c.R)
			for i := range zeros {
				zeros[i] = "0"
			}
			// two phases: the log when deriveFmap returned (f must already have run, once, after g), then the
			// returned function is invoked twice: it must only hand out f's stored results
			fmt.Fprintf(&body, "\t\t\tth, err := deriveFmap(f2, f1)\n\t\t\to.Pre = rt.Peek()\n\t\t\to.Err = rt.PrErr(err)\n")
			fmt.Fprintf(&body, "\t\t\tif th == nil {\n\t\t\t\to.ThunkNil = true\n\t\t\t\to.Ret = rt.Ints(%s)\n\t\t\t\to.Ret2 = o.Ret\n\t\t\t\treturn\n\t\t\t}\n", strings.Join(zeros, ", "))
			fmt.Fprintf(&body, "\t\t\t%sth()\n\t\t\to.Ret = rt.Ints(%s)\n", l, strings.Join(prArgs(vs, fk, kinds), ", "))
			fmt.Fprintf(&body, "\t\t\t%sth()\n\t\t\to.Ret2 = rt.Ints(%s)\n", strings.Replace(l, ":=", "=", 1), strings.Join(prArgs(vs, fk, kinds), ", "))
		}
	}
	b.WriteString(runLoop(rows, "\t\tfailAt = cs[1]\n", body.String(), "\t\to.Calls = rt.Take()\n"))
	sh.Src = b.String()
	nvals := 0
	rank := 0
	for _, ks := range c.K2 {
		nvals += len(ks)
		rank += kindRank(ks)
	}
	sh.Size = []int{c.N, nvals, rank}
}
