package engf

import (
	"bufio"
	"bytes"
	"encoding/json"
	"fmt"
	"os"
	"path/filepath"
	"sync"
	"time"

	"verif/harness/internal/core"
	"verif/harness/internal/tlc"
)

type jcall struct {
	F    int   `json:"f"`
	Args []int `json:"args"`
	Res  []int `json:"res"`
	Err  int   `json:"err"`
}
type jsl struct {
	Nil bool  `json:"nil"`
	Es  []int `json:"es"`
}
type jinner struct {
	Nil   bool  `json:"nil"`
	Es    []int `json:"es"`
	Spare []int `json:"spare"`
}

func ints(x []int) []int {
	if x == nil {
		return []int{}
	}
	return x
}

func jcalls(cs []RawCall) []jcall {
	out := make([]jcall, len(cs))
	for i, c := range cs {
		out[i] = jcall{c.F, ints(c.Args), ints(c.Res), c.Err}
	}
	return out
}

func jinners(ls []RawInner) []jinner {
	out := make([]jinner, len(ls))
	for i, l := range ls {
		out[i] = jinner{l.Nil, ints(l.Es), ints(l.Spare)}
	}
	return out
}

func jbytes(ss [][]int) [][]int {
	out := make([][]int, len(ss))
	for i, s := range ss {
		out[i] = ints(s)
	}
	return out
}

// history renders the observation in exactly the record shape FuncSem's MHist has for the family.
func history(fam string, src string, o *RawObs) map[string]interface{} {
	sl := func(s RawSl) jsl { return jsl{s.Nil, ints(s.Es)} }
	switch fam {
	case "compose", "fmaperr":
		return map[string]interface{}{"calls": jcalls(o.Calls), "ret": ints(o.Ret), "err": o.Err, "thunknil": o.ThunkNil,
			"pre": jcalls(o.Pre), "ret2": ints(o.Ret2)}
	case "joinerr", "toerror":
		return map[string]interface{}{"calls": jcalls(o.Calls), "ret": ints(o.Ret), "err": o.Err}
	case "traverse":
		return map[string]interface{}{"calls": jcalls(o.Calls), "out": sl(o.Out), "err": o.Err}
	case "plumb":
		return map[string]interface{}{"calls": jcalls(o.Calls), "ret": ints(o.Ret), "early": o.Early}
	case "fmap":
		return map[string]interface{}{"calls": jcalls(o.Calls), "out": sl(o.Out), "inb": sl(o.InB), "ina": sl(o.InA)}
	case "fmapstr":
		return map[string]interface{}{"calls": jcalls(o.Calls), "out": sl(o.Out), "inb": ints(o.InB.Es), "ina": ints(o.InA.Es)}
	case "join":
		return map[string]interface{}{"out": sl(o.Out),
			"inb": map[string]interface{}{"nil": o.LNilB, "ls": jinners(o.LB)},
			"ina": map[string]interface{}{"nil": o.LNilA, "ls": jinners(o.LA)}}
	case "joinstr":
		return map[string]interface{}{"out": sl(o.Out),
			"inb": map[string]interface{}{"nil": o.LNilB, "ls": jbytes(o.SB)},
			"ina": map[string]interface{}{"nil": o.LNilA, "ls": jbytes(o.SA)}}
	case "mem":
		steps := make([]map[string]interface{}, len(o.Steps))
		for i, s := range o.Steps {
			steps[i] = map[string]interface{}{"calls": jcalls(s.Calls), "ret": ints(s.Ret)}
		}
		return map[string]interface{}{"steps": steps}
	}
	panic("unknown family " + fam)
}

// Bad is one observation line the specification rejected.
type Bad struct {
	L   int    `json:"l"`
	ID  string `json:"id"`
	Why string `json:"why"`
	At  int    `json:"at"`
}

type valStats struct {
	Lines  int
	Runs   int
	States int
	Bad    []Bad
}

// obsLines renders all observation lines: per shape a gen line, a compile line
// (when goderive succeeded) and one run line per executed case.
func obsLines(shapes []*Shape, obs map[int]*RawObs) ([][]byte, int, error) {
	var lines [][]byte
	runs := 0
	add := func(v interface{}) error {
		b, err := json.Marshal(v)
		if err != nil {
			return err
		}
		lines = append(lines, b)
		return nil
	}
	for _, sh := range shapes {
		genOK := sh.GenExit == 0 && !sh.TimedOut
		if err := add(map[string]interface{}{"k": "gen", "id": "g:" + sh.Pkg, "fam": sh.Fam, "ok": genOK, "err": trim(sh.GenErr, 300)}); err != nil {
			return nil, 0, err
		}
		if !genOK {
			continue
		}
		if err := add(map[string]interface{}{"k": "compile", "id": "c:" + sh.Pkg, "fam": sh.Fam, "ok": sh.CompileOK, "err": sh.CompileErr}); err != nil {
			return nil, 0, err
		}
		if !sh.CompileOK {
			continue
		}
		for _, cs := range sh.Cases {
			o := obs[cs.ID]
			if o == nil {
				return nil, 0, fmt.Errorf("the driver produced no observation for case %d of %s", cs.ID, sh.Call)
			}
			runs++
			if err := add(map[string]interface{}{"k": "run", "id": fmt.Sprintf("r:%d", cs.ID), "fam": cs.Fam,
				"cfg": cs.CfgRaw, "in": cs.InRaw,
				"obs": map[string]interface{}{"panic": o.Panic, "h": history(cs.Fam, cs.C.Src, o)}}); err != nil {
				return nil, 0, err
			}
		}
	}
	return lines, runs, nil
}

// validate lets TLC judge every observation line against FunTrace.tla. An error
// means TLC could not judge (machinery problem), never a violation.
func validate(c *core.Ctx, lines [][]byte, tag string) (*valStats, error) {
	st := &valStats{Lines: len(lines)}
	if len(lines) == 0 {
		return st, nil
	}
	const per = 4000
	dir := filepath.Join(c.Work, "obs-"+tag)
	os.MkdirAll(dir, 0755)
	var paths []string
	var counts []int
	for lo := 0; lo < len(lines); lo += per {
		hi := lo + per
		if hi > len(lines) {
			hi = len(lines)
		}
		var buf bytes.Buffer
		for _, l := range lines[lo:hi] {
			buf.Write(l)
			buf.WriteByte('\n')
		}
		p := filepath.Join(dir, fmt.Sprintf("obs%03d.ndjson", len(paths)))
		if err := os.WriteFile(p, buf.Bytes(), 0644); err != nil {
			return nil, err
		}
		paths = append(paths, p)
		counts = append(counts, hi-lo)
	}
	var mu sync.Mutex
	var wg sync.WaitGroup
	var firstErr error
	sem := make(chan struct{}, tlcPar())
	for gi := range paths {
		wg.Add(1)
		go func(gi int) {
			defer wg.Done()
			sem <- struct{}{}
			defer func() { <-sem }()
			outp := paths[gi] + ".bad"
			res, err := tlc.Run(tlc.Opts{
				SpecDirs: []string{filepath.Join(c.Verif, "spec", "fun")},
				Module:   "FunTrace", Config: "FunTrace.cfg",
				Workers: 1, Timeout: 20 * time.Minute, HeapMB: 3000, Scratch: c.Work,
				Env: map[string]string{"VERIF_TRACE": paths[gi], "VERIF_OUT": outp},
			})
			mu.Lock()
			defer mu.Unlock()
			if err != nil {
				if firstErr == nil {
					firstErr = fmt.Errorf("observation validation (chunk %d): %v", gi, err)
				}
				return
			}
			if res.Violation {
				if firstErr == nil {
					firstErr = fmt.Errorf("observation validation (chunk %d): specification got stuck after %d of %d lines: %s", gi, res.Diameter-1, counts[gi], res.ErrText)
				}
				return
			}
			bads, err := readBad(outp)
			if err != nil {
				if firstErr == nil {
					firstErr = err
				}
				return
			}
			st.Bad = append(st.Bad, bads...)
			st.States += res.Distinct
		}(gi)
	}
	wg.Wait()
	if firstErr != nil {
		return nil, firstErr
	}
	return st, nil
}

func readBad(p string) ([]Bad, error) {
	f, err := os.Open(p)
	if err != nil {
		return nil, fmt.Errorf("observation validation wrote no verdict file: %v", err)
	}
	defer f.Close()
	var bads []Bad
	sc := bufio.NewScanner(f)
	sc.Buffer(make([]byte, 1<<20), 1<<24)
	for sc.Scan() {
		if len(bytes.TrimSpace(sc.Bytes())) == 0 {
			continue
		}
		var b Bad
		if err := json.Unmarshal(sc.Bytes(), &b); err != nil {
			return nil, err
		}
		bads = append(bads, b)
	}
	return bads, sc.Err()
}
