package engf

import (
	"bufio"
	"bytes"
	"context"
	"encoding/json"
	"fmt"
	"os"
	"os/exec"
	"path/filepath"
	"regexp"
	"strconv"
	"strings"
	"sync"
	"time"

	"verif/harness/internal/core"
	"verif/harness/internal/gd"
)

// RawObs mirrors rt.Obs as the driver prints it.
type RawCall struct {
	F    int
	Args []int
	Res  []int
	Err  int
}
type RawSl struct {
	Nil bool
	Es  []int
}
type RawInner struct {
	Nil   bool
	Es    []int
	Spare []int
}
type RawStep struct {
	Calls []RawCall
	Ret   []int
}
type RawObs struct {
	Case     int
	Calls    []RawCall
	Ret      []int
	Err      int
	Panic    string
	ThunkNil bool
	Pre      []RawCall
	Ret2     []int
	Early    int
	Out      RawSl
	InB, InA RawSl
	LB, LA   []RawInner
	LNilB    bool
	LNilA    bool
	SB, SA   [][]int
	Steps    []RawStep
}

// par is the number of parallel goderive runs (VERIF_PAR, default 16); TLC runs use par/2 (at most 8).
func par() int {
	if v, err := strconv.Atoi(os.Getenv("VERIF_PAR")); err == nil && v >= 1 {
		return v
	}
	return 16
}

func tlcPar() int {
	p := par() / 2
	if p < 1 {
		p = 1
	}
	if p > 8 {
		p = 8
	}
	return p
}

var rePkgLine = regexp.MustCompile(`^(c\d+)/`)

var rePos = regexp.MustCompile(`^[^\s:]+\.go:\d+(:\d+)?: `)

// compiler messages name the offending type; the defect class does not depend on it
var reNorm = []struct {
	re  *regexp.Regexp
	rep string
}{
	{regexp.MustCompile(`struct\s*\{[^}]*\}`), "T"},
	{regexp.MustCompile(`\b(param|innerParam)_\d+\b`), "${1}_N"},
	{regexp.MustCompile(`\((variable|value) of [^)]*\)`), "($1)"},
	{regexp.MustCompile(`\S+\(.*\) \(no value\) used as value`), "f(...) (no value) used as value"},
	{regexp.MustCompile(`(map\[string\]int|\*rt\.St|\[\]int|\[\]string|\brt\.(NInt|St|Ar|If)\b|\b(string|bool|int|rune)\b)`), "T"},
}

func normErr(s string) string {
	s = rePos.ReplaceAllString(s, "")
	for _, n := range reNorm {
		s = n.re.ReplaceAllString(s, n.rep)
	}
	return s
}

// runShapes realises every shape as a package of one module, runs the real
// goderive on each, compiles them, and executes all cases of the packages that
// compiled. Outcomes are recorded in the shapes; the observations are returned
// by case id.
func runShapes(c *core.Ctx, bin string, shapes []*Shape, tag string) (map[int]*RawObs, error) {
	root := filepath.Join(c.Work, "mod-"+tag)
	if err := os.MkdirAll(filepath.Join(root, "rt"), 0755); err != nil {
		return nil, err
	}
	if err := os.WriteFile(filepath.Join(root, "go.mod"), []byte("module m\n\ngo 1.24\n"), 0644); err != nil {
		return nil, err
	}
	if err := os.WriteFile(filepath.Join(root, "rt", "rt.go"), []byte(rtSource), 0644); err != nil {
		return nil, err
	}
	for _, sh := range shapes {
		d := filepath.Join(root, sh.Pkg)
		if err := os.MkdirAll(d, 0755); err != nil {
			return nil, err
		}
		if err := os.WriteFile(filepath.Join(d, "s.go"), []byte(sh.Src), 0644); err != nil {
			return nil, err
		}
	}
	// 1. the real generator, once per package
	var wg sync.WaitGroup
	next := make(chan *Shape, len(shapes))
	for _, sh := range shapes {
		next <- sh
	}
	close(next)
	nw := par()
	errs := make([]error, nw)
	for w := 0; w < nw; w++ {
		wg.Add(1)
		go func(w int) {
			defer wg.Done()
			for sh := range next {
				d := filepath.Join(root, sh.Pkg)
				r, err := gd.Run(c, bin, d, []string{"."}, "", 60*time.Second)
				if err == nil && r.Exit < 0 && !r.TimedOut {
					// killed by a signal (not by our timeout): not goderive's doing, try once more
					os.Remove(filepath.Join(d, "derived.gen.go"))
					r, err = gd.Run(c, bin, d, []string{"."}, "", 60*time.Second)
					if err == nil && r.Exit < 0 && !r.TimedOut {
						err = fmt.Errorf("goderive was killed by a signal twice in %s", sh.Pkg)
					}
				}
				if err != nil {
					errs[w] = err
					return
				}
				sh.GenExit, sh.TimedOut = r.Exit, r.TimedOut
				sh.GenErr = strings.TrimSpace(r.Stderr + r.Stdout)
				if data, err := os.ReadFile(filepath.Join(d, "derived.gen.go")); err == nil {
					sh.Derived = string(data)
				}
				if sh.GenExit != 0 || sh.TimedOut {
					// reported as a generator failure; keep its leftovers out of the build
					os.RemoveAll(d)
				}
			}
		}(w)
	}
	wg.Wait()
	for _, e := range errs {
		if e != nil {
			return nil, e
		}
	}
	// 2. compile every package; a package that does not compile is an observation of its own
	out, _ := goCmd(c, root, 10*time.Minute, "build", "./...")
	failed := map[string][]string{}
	cur := ""
	for _, line := range strings.Split(out, "\n") {
		if strings.HasPrefix(line, "# ") {
			cur = strings.TrimPrefix(strings.Fields(line)[1], "m/")
			continue
		}
		if strings.TrimSpace(line) == "" {
			continue
		}
		if m := rePkgLine.FindStringSubmatch(line); m != nil && (cur == "" || !strings.HasPrefix(line, cur+"/")) {
			cur = m[1] // parse errors are printed without a "# package" header
		}
		if cur == "" {
			return nil, fmt.Errorf("go build of the test module failed outside a package: %s", trim(out, 2000))
		}
		failed[cur] = append(failed[cur], line)
	}
	if ls, bad := failed["rt"]; bad {
		return nil, fmt.Errorf("the harness's own runtime package does not compile: %s", strings.Join(ls, "\n"))
	}
	byPkg := map[string]*Shape{}
	for _, sh := range shapes {
		byPkg[sh.Pkg] = sh
	}
	for p := range failed {
		if sh := byPkg[p]; sh != nil && (sh.GenExit != 0 || sh.TimedOut) {
			delete(failed, p)
			continue
		}
		if byPkg[p] == nil {
			return nil, fmt.Errorf("go build reports an unknown package %q: %s", p, trim(out, 2000))
		}
	}
	var ok []*Shape
	for _, sh := range shapes {
		ls, bad := failed[sh.Pkg]
		sh.CompileOK = !bad
		if bad {
			sh.CompileAll = strings.Join(ls, "\n")
			first := strings.TrimSpace(ls[0])
			// an error in the user's own file that does not involve the derived function is the harness's fault
			if strings.Contains(first, "/s.go:") && sh.GenExit == 0 && !strings.Contains(first, "derive") {
				return nil, fmt.Errorf("the harness's own source of %s (%s) does not compile: %s\n%s", sh.Pkg, sh.Call, sh.CompileAll, sh.Src)
			}
			sh.CompileErr = normErr(first)
		} else if sh.GenExit == 0 {
			ok = append(ok, sh)
		}
	}
	obs := map[int]*RawObs{}
	if len(ok) == 0 {
		return obs, nil
	}
	// 3. one driver executes all cases of all packages that compiled
	var mb strings.Builder
	mb.WriteString("package main\n\nimport (\n\t\"bufio\"\n\t\"encoding/json\"\n\t\"os\"\n\n\t\"m/rt\"\n")
	for _, sh := range ok {
		fmt.Fprintf(&mb, "\t\"m/%s\"\n", sh.Pkg)
	}
	mb.WriteString(")\n\nfunc main() {\n\tw := bufio.NewWriterSize(os.Stdout, 1<<20)\n\tdefer w.Flush()\n\tenc := json.NewEncoder(w)\n\temit := func(os []*rt.Obs) {\n\t\tfor _, o := range os {\n\t\t\tenc.Encode(o)\n\t\t}\n\t}\n")
	for _, sh := range ok {
		fmt.Fprintf(&mb, "\temit(%s.Run())\n", sh.Pkg)
	}
	mb.WriteString("}\n")
	if err := os.MkdirAll(filepath.Join(root, "drv"), 0755); err != nil {
		return nil, err
	}
	if err := os.WriteFile(filepath.Join(root, "drv", "main.go"), []byte(mb.String()), 0644); err != nil {
		return nil, err
	}
	exe := filepath.Join(root, "drv.bin")
	if out, err := goCmd(c, root, 10*time.Minute, "build", "-o", exe, "./drv"); err != nil {
		return nil, fmt.Errorf("building the driver failed: %v\n%s", err, trim(out, 3000))
	}
	ctx, cancel := context.WithTimeout(context.Background(), 5*time.Minute)
	defer cancel()
	cmd := exec.CommandContext(ctx, exe)
	cmd.Dir = root
	var so, se bytes.Buffer
	cmd.Stdout, cmd.Stderr = &so, &se
	if err := cmd.Run(); err != nil {
		return nil, fmt.Errorf("the driver did not finish (%v): %s", err, trim(se.String(), 3000))
	}
	sc := bufio.NewScanner(&so)
	sc.Buffer(make([]byte, 1<<20), 1<<26)
	for sc.Scan() {
		var o RawObs
		if err := json.Unmarshal(sc.Bytes(), &o); err != nil {
			return nil, fmt.Errorf("driver output: %v", err)
		}
		oo := o
		obs[o.Case] = &oo
	}
	return obs, sc.Err()
}

func goCmd(c *core.Ctx, dir string, timeout time.Duration, args ...string) (string, error) {
	ctx, cancel := context.WithTimeout(context.Background(), timeout)
	defer cancel()
	cmd := exec.CommandContext(ctx, c.GoBin, args...)
	cmd.Dir = dir
	// a private build cache: the shared one is trimmed and cleaned by other jobs on this machine while we build
	cmd.Env = c.GoEnv("GOCACHE=" + filepath.Join(c.Work, "gocache"))
	out, err := cmd.CombinedOutput()
	return string(out), err
}

func trim(s string, n int) string {
	if len(s) > n {
		return s[:n] + "..."
	}
	return s
}
