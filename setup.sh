#!/bin/sh
# Builds the verification harness (offline, standard library only).
set -e
cd "$(dirname "$0")/harness"
GO=/root/go/pkg/mod/golang.org/toolchain@v0.0.1-go1.24.0.linux-amd64/bin/go
if [ ! -x "$GO" ]; then
  GO="$HOME/go/pkg/mod/golang.org/toolchain@v0.0.1-go1.24.0.linux-amd64/bin/go"
fi
if [ ! -x "$GO" ]; then
  GO="$(go1.26 env GOROOT)/bin/go"
fi
export GOTOOLCHAIN=local GOFLAGS=-mod=mod GOPROXY=off GOSUMDB=off GOWORK=off
mkdir -p ../bin
"$GO" build -o ../bin/vcheck ./cmd/vcheck
echo "built $(cd .. && pwd)/bin/vcheck with $("$GO" version)"
